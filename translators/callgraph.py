#!/usr/bin/env python3
"""translators/callgraph.py — re-extract, on every run, the call graph and the recursion guards of the parser and of
the expression compiler from /repo, and write them to coq/theories/Model/CallGraph.v.

Scope: every function (free, associated, nested; `#[cfg(test)]` modules and the `mod wire` (de)serialisation
modules excluded — those belong to C10) of
    boreal-parser/src/**/*.rs, boreal/src/compiler/**/*.rs (DESIGN names expression.rs; the whole directory is taken
    so that a cycle leaving expression.rs and coming back is seen), boreal/src/regex/visitor.rs

Edges (over-approximation): function f has an edge to *every* function named g (in any file of the scope) when
the identifier g occurs in the body of f
    * followed by `(` or `::<`  (call, method call, associated call), or
    * anywhere else as a plain identifier (functions are passed by name to nom combinators), unless g is also the
      name of something bound locally in f (parameter, `let` / `for` / closure / match pattern) and the occurrence
      is not a call, or the occurrence is a field access `.g` / a field initialiser `g:`.
Closures belong to the function they are written in.

Guard sites: a function whose body contains, in this order, a comparison `<counter> >= <limit expression>` and an
increment `<counter> += 1` (check-then-increment: parser), or an increment followed by the comparison
(increment-then-check: compiler), for one of the known counters; the body must also contain `<counter> -= 1`.
    expr_recursion_counter    class 0   limit Params::expr_recursion_limit      (default from ConstsParser.v)
    string_recursion_counter  class 1   limit Params::string_recursion_limit
    condition_depth           class 2   limit CompilerParams::max_condition_depth
    include_depth (parameter) class 3   limit MAX_INCLUDE_DEPTH (boreal/src/compiler/mod.rs; `if include_depth >=
                                        MAX_INCLUDE_DEPTH { return Err` before any other use, nested calls get `+ 1`)

Method calls `recv.g(..)` go to every method named g, except: receiver `self` (methods of the same impl type),
receiver bound by an enum-variant pattern `Variant(recv)` whose payload type is known (methods of that type), or
receiver `x.field` where every struct field of that name has a type defined outside the scope (foreign method).
`Type::g` goes to the associated functions of `Type` (none when `Type` is defined outside the scope, all of that
name when it is a generic parameter); `Self::g` to those of the surrounding impl.

A guard only protects the calls made while its increment is in force.  References that sit before the first
increment, or after a decrement (up to the next increment; up to the end of the block if the block returns; plus
the start of an enclosing loop body that does not increment again) are attributed to an extra UNGUARDED copy of
the function (`f (counter restored)`), called by every caller of f: a restore placed before a later recursive
call therefore leaves a cycle without guard and `guards_cut_all_cycles` evaluates to false.  This is textual
(block structure, not control flow): `?` early exits and `break`/`continue` are not followed.

Anything unexpected (unbalanced braces, a counter used in a shape not understood, a known guard function that
disappeared) raises TranslateError: a broken tie, reported by the check."""
import os, re, sys, glob
try:
    from . import guardflow
except ImportError:
    import guardflow


class TranslateError(Exception):
    pass


COUNTERS = {"expr_recursion_counter": 0, "string_recursion_counter": 1, "condition_depth": 2}
LIMIT_OF = {0: "expr_recursion_limit", 1: "string_recursion_limit", 2: "max_condition_depth"}
# class 3: the include depth is a *parameter* (`include_depth`), compared with the constant MAX_INCLUDE_DEPTH and
# passed as `include_depth + 1` to the nested calls
KEYWORDS = set("""as break const continue crate else enum extern false fn for if impl in let loop match mod move mut pub
ref return self Self static struct super trait true type unsafe use where while async await dyn""".split())


def scope_files(repo):
    fs = sorted(glob.glob(os.path.join(repo, "boreal-parser/src/**/*.rs"), recursive=True))
    fs += sorted(f for f in glob.glob(os.path.join(repo, "boreal/src/compiler/**/*.rs"), recursive=True)
                 if not f.endswith("/tests.rs"))
    fs += [os.path.join(repo, "boreal/src/regex/visitor.rs")]
    for f in fs:
        if not os.path.isfile(f):
            raise TranslateError("missing source file " + f)
    if len(fs) < 10:
        raise TranslateError("parser sources not found under " + repo)
    return fs


def strip_noise(src):
    """Blank out comments, string / char literals (keeping length and newlines)."""
    out = []
    i, n = 0, len(src)

    def blank(s):
        return "".join(c if c == "\n" else " " for c in s)
    while i < n:
        c = src[i]
        if src.startswith("//", i):
            j = src.find("\n", i)
            j = n if j < 0 else j
            out.append(blank(src[i:j]))
            i = j
        elif src.startswith("/*", i):
            depth, j = 1, i + 2
            while j < n and depth:
                if src.startswith("/*", j):
                    depth += 1
                    j += 2
                elif src.startswith("*/", j):
                    depth -= 1
                    j += 2
                else:
                    j += 1
            if depth:
                raise TranslateError("unterminated block comment")
            out.append(blank(src[i:j]))
            i = j
        elif c == '"' or (c == "r" and re.match(r'r#*"', src[i:]) and (i == 0 or not (src[i - 1].isalnum() or src[i - 1] == "_"))) \
                or (c == "b" and re.match(r'b(r#*)?"', src[i:]) and (i == 0 or not (src[i - 1].isalnum() or src[i - 1] == "_"))):
            m = re.match(r'b?r(#*)"', src[i:])
            if m:
                end = '"' + m.group(1)
                j = src.find(end, i + len(m.group(0)))
                if j < 0:
                    raise TranslateError("unterminated raw string")
                j += len(end)
            else:
                j = i + (2 if c == "b" else 1)
                while j < n and src[j] != '"':
                    j += 2 if src[j] == "\\" else 1
                if j >= n:
                    raise TranslateError("unterminated string")
                j += 1
            out.append('"' + blank(src[i + 1:j - 1]) + '"' if j - i >= 2 else blank(src[i:j]))
            i = j
        elif c == "'":
            m = re.match(r"'(\\x[0-9a-fA-F]{2}|\\u\{[0-9a-fA-F]+\}|\\.|[^\\'])'", src[i:])
            if m:
                out.append("' '" + " " * (len(m.group(0)) - 3))
                i += len(m.group(0))
            else:           # lifetime
                out.append(c)
                i += 1
        else:
            out.append(c)
            i += 1
    return "".join(out)


def match_brace(s, i):
    """s[i] == '{' -> index just after the matching '}'"""
    depth = 0
    for j in range(i, len(s)):
        if s[j] == "{":
            depth += 1
        elif s[j] == "}":
            depth -= 1
            if depth == 0:
                return j + 1
    raise TranslateError("unbalanced braces")


def remove_test_modules(s):
    while True:
        m = re.search(r"#\[cfg\((?:test|feature\s*=\s*\"\s*\"|feature\s*=\s*\"[^\"]*\")\)\]\s*(pub(\([^)]*\))?\s+)?mod\s+(tests|wire)\s*\{", s)
        if not m:
            return s
        end = match_brace(s, m.end() - 1)
        s = s[:m.start()] + "".join(c if c == "\n" else " " for c in s[m.start():end]) + s[end:]


FN_RE = re.compile(r"\bfn\s+([A-Za-z_][A-Za-z0-9_]*)")


def functions_of(s):
    """[(name, header_start, body_start, body_end)] for every fn with a body."""
    out = []
    for m in FN_RE.finditer(s):
        # find the body: first '{' at paren/angle depth 0 after the parameter list, or ';' (declaration only)
        i = m.end()
        par = 0
        while i < len(s):
            ch = s[i]
            if ch in "([":
                par += 1
            elif ch in ")]":
                par -= 1
            elif ch == ";" and par == 0:
                i = None
                break
            elif ch == "{" and par == 0:
                break
            i += 1
        if i is None:
            continue
        if i >= len(s):
            raise TranslateError("function %s without body" % m.group(1))
        out.append((m.group(1), m.start(), i, match_brace(s, i)))
    return out


IDENT = re.compile(r"[A-Za-z_][A-Za-z0-9_]*")


def bound_names(header, body):
    """identifiers bound locally: parameters, let / for / if-let / while-let patterns, closure parameters,
    match arm patterns"""
    b = set()
    pm = re.search(r"\((.*)\)", header, flags=re.S)
    if pm:
        for m in re.finditer(r"([A-Za-z_][A-Za-z0-9_]*)\s*:", pm.group(1)):
            b.add(m.group(1))
    for m in re.finditer(r"\blet\b(.*?)(=|;)", body, flags=re.S):
        b.update(IDENT.findall(m.group(1).split(":")[0]))
    for m in re.finditer(r"\bfor\b(.*?)\bin\b", body, flags=re.S):
        b.update(IDENT.findall(m.group(1)))
    for m in re.finditer(r"\|([^|{};]*)\|", body):
        b.update(IDENT.findall(m.group(1).split(":")[0]))
    for m in re.finditer(r"([^;{}=]*?)=>", body):
        b.update(x for x in IDENT.findall(m.group(1)) if x[0].islower() or x[0] == "_")
    return b - KEYWORDS


def module_path(rel):
    """module path of a source file inside its crate: boreal-parser/src/expression/identifier.rs -> [expression, identifier]"""
    parts = rel.split("/")
    i = parts.index("src")
    crate = "/".join(parts[:i])
    mods = parts[i + 1:]
    mods[-1] = mods[-1][:-3]
    if mods[-1] in ("mod", "lib"):
        mods = mods[:-1]
    return crate, mods


def use_items(s):
    """[(path segments, alias or None)] of every `use` declaration (braces flattened, globs kept as '*')"""
    out = []

    def expand(prefix, rest):
        rest = rest.strip()
        if not rest:
            return
        if rest.startswith("{"):
            # split at top-level commas
            inner = rest[1:rest.rindex("}")]
            depth, cur, parts = 0, "", []
            for ch in inner:
                if ch == "{":
                    depth += 1
                elif ch == "}":
                    depth -= 1
                if ch == "," and depth == 0:
                    parts.append(cur)
                    cur = ""
                else:
                    cur += ch
            parts.append(cur)
            for p_ in parts:
                expand(prefix, p_)
            return
        m = re.match(r"([A-Za-z_][A-Za-z0-9_]*|\*)\s*(::\s*(.*))?$", rest, flags=re.S)
        if not m:
            m2 = re.match(r"([A-Za-z_][A-Za-z0-9_]*)\s+as\s+([A-Za-z_][A-Za-z0-9_]*)$", rest)
            if m2:
                out.append((prefix + [m2.group(1)], m2.group(2)))
                return
            raise TranslateError("use declaration not understood: %r" % rest)
        if m.group(2):
            expand(prefix + [m.group(1)], m.group(3))
        else:
            out.append((prefix + [m.group(1)], None))
    for m in re.finditer(r"\buse\s+([^;]+);", s):
        expand([], m.group(1))
    return out


def struct_fields(s):
    """field name -> set of declared type texts, for every `struct X { .. }` of the file"""
    out = {}
    for m in re.finditer(r"\bstruct\s+\w+[^;{(]*\{", s):
        end = match_brace(s, m.end() - 1)
        for fm in re.finditer(r"([a-z_][a-z0-9_]*)\s*:\s*([^,}]+)", s[m.end():end - 1]):
            out.setdefault(fm.group(1), set()).add(fm.group(2).strip())
    return out


def analyse(repo):
    files = scope_files(repo)
    nodes = []          # functions
    texts = {}
    type_names = set()
    for f in files:
        rel = os.path.relpath(f, repo)
        s = remove_test_modules(strip_noise(open(f, encoding="utf-8").read()))
        texts[rel] = s
        type_names.update(re.findall(r"\b(?:struct|enum|trait|union)\s+([A-Z]\w*)", s))
        for name, h0, b0, b1 in functions_of(s):
            header = s[h0:b0]
            pm = re.search(r"\(\s*(&\s*(\'\w+\s+)?)?(mut\s+)?self\b", header)
            nodes.append({"id": len(nodes), "file": rel, "name": name, "header": header, "body": s[b0:b1],
                          "span": (h0, b1), "method": bool(pm)})
    if len(nodes) < 100:
        raise TranslateError("only %d functions found: parser sources not understood" % len(nodes))
    # associated (inside impl / trait) or free
    for rel, s in texts.items():
        blocks = []
        for m in re.finditer(r"\b(impl|trait)\b([^;{]*)\{", s):
            head = re.sub(r"<[^<>]*>", "", re.sub(r"<[^<>]*>", "", m.group(2)))     # drop generics (two levels)
            head = head.split(" where ")[0]
            if m.group(1) == "impl" and re.search(r"\bfor\b", head):
                head = re.split(r"\bfor\b", head)[1]
            ids = re.findall(r"[A-Za-z_][A-Za-z0-9_]*", head)
            ty = ids[-1] if ids else None
            blocks.append((m.start(), match_brace(s, m.end() - 1), ty))
        for nd in nodes:
            if nd["file"] == rel:
                inside = [b_ for b_ in blocks if b_[0] <= nd["span"][0] and nd["span"][1] <= b_[1]]
                nd["assoc"] = bool(inside)
                nd["impl_type"] = inside[-1][2] if inside else None
    by_name = {}
    for nd in nodes:
        by_name.setdefault(nd["name"], []).append(nd)
    fields = {}
    for rel, s in texts.items():
        for k, v in struct_fields(s).items():
            fields.setdefault(k, set()).update(v)

    payload = {}        # enum variant name -> set of payload type names (last path segment)
    for rel, s_ in texts.items():
        for m in re.finditer(r"\benum\s+\w+[^;{(]*\{", s_):
            end = match_brace(s_, m.end() - 1)
            for vm in re.finditer(r"\b([A-Z]\w*)\s*\(\s*(?:Box\s*<\s*)?([\w:]+)\s*>?\s*\)", s_[m.end():end - 1]):
                payload.setdefault(vm.group(1), set()).add(vm.group(2).split("::")[-1])

    def receiver_types(nd, body, recv):
        """type names the receiver variable `recv` of a method call may have, or None when unknown"""
        if recv == "self":
            return {nd["impl_type"]} if nd["impl_type"] else None
        tys = set()
        for pm in re.finditer(r"\b(?:\w+\s*::\s*)?([A-Z]\w*)\s*\(\s*(?:ref\s+)?(?:mut\s+)?%s\s*\)" % re.escape(recv), body):
            if pm.group(1) in payload:
                tys |= payload[pm.group(1)]
            else:
                return None
        # bound once by such a pattern and nowhere else
        others = re.findall(r"\blet\s+(?:mut\s+)?%s\b|\|\s*%s\s*\||\b%s\s*:" % ((re.escape(recv),) * 3), body + nd["header"])
        if not tys or others:
            return None
        return tys

    def foreign_field(name):
        """every declaration of this field has a type that mentions no type defined in the scope"""
        tys = fields.get(name)
        if not tys:
            return False
        return all(not (set(re.findall(r"[A-Z]\w*", t)) & type_names) for t in tys)

    mods = {rel: module_path(rel) for rel in texts}

    def in_module(nd, seg, crate):
        c2, m2 = mods[nd["file"]]
        if seg in ("crate", "super", "self"):
            return c2 == crate
        if seg == "boreal_parser":
            return c2 == "boreal-parser"
        return bool(m2) and m2[-1] == seg

    imports = {}
    for rel, s in texts.items():
        crate = mods[rel][0]
        imp = {}            # local name -> set of node ids
        for path, alias in use_items(s):
            item = path[-1]
            seg = path[-2] if len(path) > 1 else None
            if item == "*":
                if seg is None:
                    continue
                for nd in nodes:
                    if not nd["assoc"] and in_module(nd, seg, crate):
                        imp.setdefault(nd["name"], set()).add(nd["id"])
                continue
            for nd in by_name.get(item, []):
                if not nd["assoc"] and (seg is None or in_module(nd, seg, crate)):
                    imp.setdefault(alias or item, set()).add(nd["id"])
        imports[rel] = imp

    edges = set()
    occ = {}            # (caller, callee) -> positions of the references in the caller's body

    def add_edge(a_, b_, pos_):
        edges.add((a_, b_))
        occ.setdefault((a_, b_), []).append(pos_)
    for nd in nodes:
        body = nd["body"]
        rel = nd["file"]
        crate = mods[rel][0]
        bound = bound_names(nd["header"], body)
        for m in IDENT.finditer(body):
            g = m.group(0)
            if g in KEYWORDS:
                continue
            local_alias = imports[rel].get(g)
            if g not in by_name and not local_alias:
                continue
            j = m.end()
            while j < len(body) and body[j] in " \n\t":
                j += 1
            nxt = body[j:j + 3]
            k = m.start() - 1
            while k >= 0 and body[k] in " \n\t":
                k -= 1
            prev = body[k] if k >= 0 else ""
            prev2 = body[max(0, k - 1):k + 1]
            is_call = nxt.startswith("(") or nxt.startswith("::<")
            if body[max(0, m.start() - 3):m.start()] == "fn ":
                continue                          # nested fn declaration
            if nxt.startswith("!") and not nxt.startswith("!="):
                continue                          # macro
            if prev == "." and prev2 != "..":
                if not is_call:
                    continue                      # field access
                # method call: every method of that name, unless the receiver is a field of foreign type
                rm = re.search(r"\.\s*([a-z_][a-z0-9_]*)\s*$", body[:k])
                if rm and foreign_field(rm.group(1)):
                    continue
                rtys = None
                if rm and rm.group(1) in fields:
                    # receiver `x.field`: the types named in the declarations of that field
                    rtys = set()
                    for t_ in fields[rm.group(1)]:
                        rtys |= set(re.findall(r"[A-Z]\w*", t_))
                vm = re.search(r"(?<![\w\.\)\]\?])([a-z_][a-z0-9_]*)\s*$", body[:k])
                if vm and not rm:
                    rtys = receiver_types(nd, body, vm.group(1))
                for t in by_name.get(g, []):
                    if t["method"] and (rtys is None or t["impl_type"] in rtys):
                        add_edge(nd["id"], t["id"], m.start())
                continue
            if prev2 == "::":
                # path: Seg::g
                sm = re.search(r"([A-Za-z_][A-Za-z0-9_]*)\s*(<[^<>]*>)?\s*::\s*$", body[:m.start()])
                seg = sm.group(1) if sm else None
                for t in by_name.get(g, []):
                    if seg is None:
                        if t["assoc"]:
                            add_edge(nd["id"], t["id"], m.start())
                    elif seg == "Self":
                        if t["assoc"] and (nd["impl_type"] is None or t["impl_type"] == nd["impl_type"]):
                            add_edge(nd["id"], t["id"], m.start())
                    elif seg[0].isupper():
                        # Type::g — associated functions of that type; a trait name or a generic parameter
                        # (not a type of the scope) may stand for any type
                        generic = bool(re.fullmatch(r"[A-Z][0-9]?", seg)) or \
                            bool(re.search(r"\b%s\b" % re.escape(seg), nd["header"].split("(")[0]))
                        if t["assoc"] and (t["impl_type"] == seg or (seg not in type_names and generic)):
                            add_edge(nd["id"], t["id"], m.start())
                    elif not t["assoc"] and in_module(t, seg, crate):
                        add_edge(nd["id"], t["id"], m.start())
                continue
            if nxt.startswith(":") and not nxt.startswith("::") and not is_call:
                continue                          # field initialiser / type ascription
            if not is_call and g in bound:
                continue                          # a local variable of that name
            # bare name: functions of this file (free or nested), or imported ones
            targets = {t["id"] for t in by_name.get(g, []) if t["file"] == rel and not t["assoc"]}
            if local_alias:
                targets |= local_alias
            for t in targets:
                add_edge(nd["id"], t, m.start())
    # guards
    guards = []
    after_restore = {}      # guarded function -> callees referenced where its increment is not in force
    flows = {}              # guarded function -> counter flow (translators/guardflow.py)
    for nd in nodes:
        body = nd["body"]
        # nested functions are nodes of their own: do not attribute their guard to the enclosing function
        inner = body
        for name, h0, b0, b1 in functions_of(body[1:]):
            inner = inner[:1 + h0] + " " * (b1 - h0) + inner[1 + b1:]
        for cname, cls in COUNTERS.items():
            if not re.search(r"\b%s\b" % cname, inner):
                continue
            cmp_m = re.search(r"\bif\s+[\w\.]*\b%s\s*>=\s*[\w\.]*\b%s\s*\{\s*return\s+Err\b" % (cname, LIMIT_OF[cls]), inner)
            incs = [m.start() for m in re.finditer(r"\b%s\s*\+=\s*1\b" % cname, inner)]
            decs = [m.start() for m in re.finditer(r"\b%s\s*-=\s*1\b" % cname, inner)]
            other = [m.start() for m in re.finditer(r"\b%s\s*(=[^=]|\+=|-=|\*=)" % cname, inner)]
            if not cmp_m and not incs and not decs:
                if all(re.match(r"%s\s*:" % cname, inner[o:]) for o in other) or not other:
                    continue                      # only read or initialised (`counter: 0`)
            if not (cmp_m and incs) or len(other) != len(incs) + len(decs):
                raise TranslateError("function %s (%s) uses %s outside the `if counter >= limit { return Err }` / "
                                     "`+= 1` / `-= 1` pattern" % (nd["name"], nd["file"], cname))
            if cls in (0, 1):
                # parser: the check comes first, every increment after it
                if not all(cmp_m.start() < i for i in incs):
                    raise TranslateError("function %s: increment of %s before the limit check" % (nd["name"], cname))
                order = "check_then_increment"
            else:
                # compiler: one increment immediately followed by the check
                if len(incs) != 1 or not (incs[0] < cmp_m.start() < incs[0] + 80):
                    raise TranslateError("function %s: %s is not checked right after its increment" % (nd["name"], cname))
                order = "increment_then_check"
            guards.append((nd["id"], cls, order))
            # counter flow of the function: control-flow graph + certificate (re-checked by coqc)
            try:
                flow = guardflow.analyse_guard(nd["file"] + "::" + nd["name"], inner, nd["header"], cname,
                                               {t_: qs for (f_, t_), qs in occ.items() if f_ == nd["id"]}, cls == 2)
            except guardflow.GuardFlowError as e:
                raise TranslateError("guard of %s: %s" % (nd["name"], e))
            flows[nd["id"]] = flow
            unc = set()
            for ins, succs, cert, site in flow["nodes"]:
                if ins[0] == "call":
                    delta = min([cert.get(v, 0) for v in ins[2]], default=0)
                    if delta < 1:
                        unc |= set(ins[1])
            if unc:
                after_restore[nd["id"]] = sorted(set(after_restore.get(nd["id"], [])) | unc)
    for nd in nodes:
        body = nd["body"]
        if not re.search(r"\binclude_depth\b", nd["header"]):
            if re.search(r"\binclude_depth\b", body) and not re.search(r"\bfn\b[^{]*include_depth", body):
                raise TranslateError("function %s uses include_depth without taking it as a parameter" % nd["name"])
            continue
        chk = re.search(r"\bif\s+include_depth\s*>=\s*MAX_INCLUDE_DEPTH\s*\{\s*return\s+Err\b", body)
        uses = [m.start() for m in re.finditer(r"\binclude_depth\b", body)]
        passes = re.findall(r"\binclude_depth\s*\+\s*1\b", body)
        if chk:
            # every other use after the check passes `include_depth + 1` (or the value unchanged) to a callee
            chk_use = chk.start() + body[chk.start():].index("include_depth")
            if not passes or any(u < chk.start() for u in uses if u != chk_use):
                raise TranslateError("function %s: include_depth used before its limit check" % nd["name"])
            # the function that checks must hand `include_depth + 1` to everything it calls
            if any(not re.match(r"include_depth\s*\+\s*1\b", body[u:]) for u in uses if u > chk_use):
                raise TranslateError("function %s: include_depth passed on without `+ 1` after its limit check"
                                     % nd["name"])
            guards.append((nd["id"], 3, "parameter_check"))
        elif re.search(r"include_depth\s*(-|\*|=[^=])", body):
            raise TranslateError("function %s changes include_depth in a way that is not understood" % nd["name"])
    names = {(nodes[g]["name"]) for g, _, _ in guards}
    for expected in ("boolean_expression", "primary_expression", "tokens", "alternative", "compile_expression",
                     "add_component"):
        if expected not in names:
            raise TranslateError("recursion guard of `%s` not found (source changed shape?)" % expected)
    check_input_construction(nodes, edges, guards)
    return nodes, sorted(edges), guards, after_restore, flows


def check_input_construction(nodes, edges, guards):
    """A fresh `Input` starts its counters at 0: no function that can be reached from a guarded parser function may
    build one (`Input::new`, `Input::with_params`, `Input { .. }` without `..*self`)."""
    makers = set()
    for nd in nodes:
        if not nd["file"].startswith("boreal-parser/"):
            continue
        b = nd["body"]
        if re.search(r"\bInput\s*::\s*(new|with_params)\s*\(", b) or \
           (re.search(r"\b(Self|Input)\s*\{", b) and nd.get("impl_type") == "Input" and "recursion_counter" in b
                and not re.search(r"\.\.\s*\*?\s*self", b)):
            makers.add(nd["id"])
    adj = {}
    for a, b in edges:
        adj.setdefault(a, []).append(b)
    seen, work = set(), [g for g, c, _ in guards if c in (0, 1)]    # the counters of `Input`
    while work:
        u = work.pop()
        for v in adj.get(u, []):
            if v not in seen:
                seen.add(v)
                work.append(v)
    bad = sorted(nodes[m]["file"] + "::" + nodes[m]["name"] for m in makers & seen)
    if bad:
        raise TranslateError("a function reachable from a recursion guard builds a fresh Input (counters reset): "
                             + ", ".join(bad))


def enclosing_block(s, p):
    """(start, end) of the innermost `{ .. }` around position p (end = index just after the closing brace)"""
    depth = 0
    i = p
    while i >= 0:
        if s[i] == "}":
            depth += 1
        elif s[i] == "{":
            if depth == 0:
                return i, match_brace(s, i)
            depth -= 1
        i -= 1
    return 0, len(s)


def coverage(inner, incs, decs):
    """Where in the body of a guarded function is its increment in force?  Returns covered(position).
    Not in force: before the first increment; after a decrement, up to the next increment (textually), or only up
    to the end of the enclosing block when that block returns; and, when the decrement sits in a loop whose body
    does not increment again before it, the beginning of the loop body (next iteration)."""
    n = len(inner)
    unc = [(0, min(incs))]
    loops = []
    for m in re.finditer(r"\b(loop|while|for)\b[^{;]*\{", inner):
        loops.append((m.end() - 1, match_brace(inner, m.end() - 1)))
    for p in decs:
        bs, be = enclosing_block(inner, p)
        if re.search(r"\breturn\b", inner[p:be]):
            unc.append((p, be))
            continue
        unc.append((p, min([i for i in incs if i > p], default=n)))
        for lb, le in loops:
            if lb < p < le and not any(lb < i < p for i in incs):
                unc.append((lb, p))
    return lambda q: not any(a_ <= q < b_ for a_, b_ in unc)


def coq_string(s):
    return '"' + s.replace('"', '""') + '"'


def render(nodes, edges, guards, after_restore=None, flows=None):
    # A guarded function that refers to callees while its increment is not in force (before the increment, after
    # the restore) is split: the guarded node keeps all its edges, and a second, UNGUARDED node `f (restored)`
    # gets the edges to those callees and is called by everyone who calls f.
    nodes = list(nodes)
    edges = list(edges)
    copy_of = {}
    for f, targets in sorted((after_restore or {}).items()):
        nid = len(nodes)
        copy_of[f] = nid
        nodes.append({"id": nid, "file": nodes[f]["file"], "name": nodes[f]["name"] + " (counter restored)"})
        callers = [a for a, b in edges if b == f]
        edges += [(a, nid) for a in callers] + [(nid, t) for t in targets]
    adj = {}
    for a, b in edges:
        adj.setdefault(a, []).append(b)
    lines = ["(* Model/CallGraph.v — GENERATED by translators/callgraph.py from /repo on every run; do not edit.",
             "   %d functions, %d call edges (over-approximated), %d recursion guards. *)" % (len(nodes), len(edges), len(guards)),
             "From Coq Require Import String.",
             "From Boreal Require Import Base.Prelude Model.CallGraphCheck.",
             "Open Scope string_scope.",
             "",
             "Definition cg_names : list (N * string) := ["]
    lines.append(";\n".join("  (%d, %s)" % (nd["id"], coq_string(nd["file"] + "::" + nd["name"])) for nd in nodes))
    lines.append("].")
    lines.append("")
    lines.append("Definition graph : cgraph := {|")
    lines.append("  cg_adj := [")
    lines.append(";\n".join("    (%d, [%s])" % (nd["id"], "; ".join(str(x) for x in sorted(adj.get(nd["id"], []))))
                            for nd in nodes))
    lines.append("  ];")
    lines.append("  cg_guards := [%s];" % "; ".join("(%d, %d)" % (g, c) for g, c, _ in guards))
    lines.append("  cg_progs := [")
    progs = []
    accepted = []
    for f, fl in sorted((flows or {}).items()):
        ns_ = []
        for ins, succs, cert, site in fl["nodes"]:
            if ins[0] == "nop":
                i_ = "INop"
            elif ins[0] in ("inc", "dec"):
                i_ = "%s %d" % ("IInc" if ins[0] == "inc" else "IDec", ins[1])
            elif ins[0] == "bind":
                i_ = "IBind %d [%s]" % (ins[1], "; ".join("%d" % x for x in ins[2]))
            elif ins[0] == "call":
                i_ = "ICall [%s]%%N [%s]" % ("; ".join("%d" % x for x in ins[1]), "; ".join("%d" % x for x in ins[2]))
            elif ins[0] == "ret_ok":
                i_ = "IRetOk %d" % ins[1]
            else:
                i_ = "IRetErr"
            ns_.append("      {| gn_instr := %s; gn_succs := [%s]; gn_cert := [%s] |}" % (
                i_, "; ".join("%d" % x for x in succs), "; ".join("(%d, %d)" % kv for kv in sorted(cert.items()))))
        progs.append("    {| gp_fn := %d; gp_copy := %s; gp_params := [%s]%%nat; gp_nodes := [\n%s\n    ]%%nat |}" % (
            f, "Some %d%%N" % copy_of[f] if f in copy_of else "None",
            "; ".join("%d" % x for x in fl["params"]), ";\n".join(ns_)))
        accepted.append("%s: %d flat expressions, %d `?` exits; closures handed to combinators: %s" % (
            nodes[f]["name"], fl["sites"]["flat"], fl["sites"]["question_mark"],
            "; ".join(fl["sites"]["closure"]) or "none"))
    lines.append(";\n".join(progs))
    lines.append("  ]")
    lines.append("|}.")
    lines.append("")
    lines.append("(* counter flow accepted by pattern (see translators/guardflow.py): " + " | ".join(accepted).replace("*)", "* )")
                 + " | add_component: the include depth is a by-value parameter, handed on as `include_depth + 1` at every use after the check *)")
    lines.append("")
    lines.append("(* guard sites: " + "; ".join("%s::%s class %d %s" % (nodes[g]["file"], nodes[g]["name"], c, o)
                                              for g, c, o in guards) + " *)")
    return "\n".join(lines) + "\n"


def main(repo, out):
    nodes, edges, guards, after_restore, flows = analyse(repo)
    txt = render(nodes, edges, guards, after_restore, flows)
    try:
        if open(out).read() == txt:
            return False
    except FileNotFoundError:
        pass
    os.makedirs(os.path.dirname(out), exist_ok=True)
    tmp = out + ".tmp%d" % os.getpid()
    open(tmp, "w").write(txt)
    os.replace(tmp, out)
    return True


def run(repo, verif):
    """Regenerate Model/CallGraph.v; returns a list of problems (empty when fine)."""
    try:
        main(repo, os.path.join(verif, "coq", "theories", "Model", "CallGraph.v"))
    except TranslateError as e:
        return ["callgraph.py: %s" % e]
    return []


if __name__ == "__main__":
    repo = sys.argv[1] if len(sys.argv) > 1 else "/repo"
    if len(sys.argv) > 2:
        main(repo, sys.argv[2])
    else:
        nodes, edges, guards, after_restore, flows = analyse(repo)
        print(len(nodes), "functions", len(edges), "edges")
        for f, ts in after_restore.items():
            print("outside the increment of", nodes[f]["name"], ":", [nodes[t]["name"] for t in ts])
        for g, c, o in guards:
            print("guard", nodes[g]["file"], nodes[g]["name"], c, o)
