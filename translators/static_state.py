#!/usr/bin/env python3
"""translators/static_state.py — inventory, on every run, of the state in /repo that can outlive a scan or be reached
by two scans at once: `static` items, `thread_local!` items, lazily initialised globals, and every mention of an
interior-mutable type (Cell, RefCell, UnsafeCell, Mutex, RwLock, Once*, Lazy*, Atomic*, regex-automata's Pool) in a
field, a binding or a constructor call, in boreal/src and boreal-parser/src.

Property C13's model says: everything a scan writes lives in the `ScanData` built for that scan; what scans share
(`Arc<Inner>`) is read-only except the lazy-DFA cache pools (hypothesis `pool_content_irrelevant`).  That is a claim
about *which state exists*; this translator ties it to the source: the inventory must be exactly the reviewed one
(translators/static_state_reviewed.json, each entry with the reason why it cannot carry information from one scan
to another).  A new item is a broken tie, reported by the check; it is never silently accepted.  The scan is a
deliberate over-approximation (text level, test modules and verification hooks included).
"""
import json, os, re

KINDS = r"Cell|RefCell|UnsafeCell|Mutex|RwLock|OnceLock|OnceCell|LazyLock|LazyCell|Lazy|Once|Pool|Atomic[A-Z][A-Za-z0-9]*"
DIRS = ["boreal/src", "boreal-parser/src"]


class TranslateError(Exception):
    pass


def strip(src):
    """remove comments, string and char literals (keeps line structure)"""
    out, i, n = [], 0, len(src)
    while i < n:
        c = src[i]
        if src.startswith("//", i):
            j = src.find("\n", i)
            i = n if j < 0 else j
        elif src.startswith("/*", i):
            depth, j = 1, i + 2
            while j < n and depth:
                if src.startswith("/*", j):
                    depth, j = depth + 1, j + 2
                elif src.startswith("*/", j):
                    depth, j = depth - 1, j + 2
                else:
                    j += 1
            out.append("\n" * src.count("\n", i, j))
            i = j
        elif c == '"':
            j = i + 1
            while j < n and src[j] != '"':
                j += 2 if src[j] == "\\" else 1
            out.append('""' + "\n" * src.count("\n", i, j))
            i = j + 1
        elif c == "r" and re.match(r'r#*"', src[i:]) and (i == 0 or not (src[i - 1].isalnum() or src[i - 1] == "_")):
            m = re.match(r'r(#*)"', src[i:])
            end = '"' + m.group(1)
            j = src.find(end, i + len(m.group(0)))
            if j < 0:
                raise TranslateError("unterminated raw string")
            out.append('""' + "\n" * src.count("\n", i, j))
            i = j + len(end)
        elif c == "'" and re.match(r"'(\\.[^']*|[^'\\])'", src[i:]):
            m = re.match(r"'(\\.[^']*|[^'\\])'", src[i:])
            out.append("' '")
            i += len(m.group(0))
        else:
            out.append(c)
            i += 1
    return "".join(out)


def norm(t):
    return re.sub(r"\s+", " ", t).strip()


def scan_file(rel, src):
    items = set()
    txt = strip(src)
    # thread_local! { ... static NAME: TYPE = ...; }
    for m in re.finditer(r"\bthread_local!\s*[({]", txt):
        depth, j = 1, m.end()
        while j < len(txt) and depth:
            depth += {"{": 1, "(": 1, "}": -1, ")": -1}.get(txt[j], 0)
            j += 1
        for s in re.finditer(r"\bstatic\s+(?:mut\s+)?([A-Za-z_][A-Za-z0-9_]*)\s*:\s*([^=;]+)", txt[m.end():j]):
            items.add((rel, "thread_local", "%s: %s" % (s.group(1), norm(s.group(2)))))
        txt = txt[:m.start()] + " " * (j - m.start()) + txt[j:]
    for s in re.finditer(r"\bstatic\s+(mut\s+)?([A-Z_][A-Z0-9_]*)\s*:\s*([^=;]+)", txt):
        items.add((rel, "static mut" if s.group(1) else "static", "%s: %s" % (s.group(2), norm(s.group(3)))))
    for s in re.finditer(r"\blazy_static!", txt):
        items.add((rel, "lazy_static", "lazy_static!"))
    # name: Type mentioning an interior-mutable type (fields, parameters, bindings)
    for s in re.finditer(r"\b([a-z_][A-Za-z0-9_]*)\s*(?<!:):(?!:)\s*([^,;=(){}]*\b(?:%s)\b[^,;=(){}]*)" % KINDS, txt):
        items.add((rel, "typed", "%s: %s" % (s.group(1), norm(s.group(2)))))
    # constructor calls
    for s in re.finditer(r"\b(%s)::(new|default|const_new|from)\b" % KINDS, txt):
        items.add((rel, "constructed", s.group(1)))
    return items


def inventory(repo):
    items = set()
    for d in DIRS:
        root = os.path.join(repo, d)
        if not os.path.isdir(root):
            raise TranslateError("missing directory %s" % d)
        for base, _, files in os.walk(root):
            for f in sorted(files):
                if f.endswith(".rs"):
                    p = os.path.join(base, f)
                    rel = os.path.relpath(p, repo)
                    try:
                        items |= scan_file(rel, open(p, encoding="utf-8").read())
                    except (OSError, TranslateError) as e:
                        raise TranslateError("%s: %s" % (rel, e))
    return sorted(items)


def run(repo, verif):
    """returns the list of problems (strings); empty when the inventory is the reviewed one"""
    try:
        inv = inventory(repo)
    except TranslateError as e:
        return ["static_state: " + str(e)]
    p = os.path.join(verif, "translators", "static_state_reviewed.json")
    try:
        reviewed = {(e["file"], e["kind"], e["text"]) for e in json.load(open(p))["reviewed"]}
    except (OSError, ValueError, KeyError) as e:
        return ["static_state: cannot read the reviewed inventory: %s" % e]
    return ["unreviewed state that can outlive a scan or be shared by scans: %s [%s] %s" % it
            for it in inv if it not in reviewed]


if __name__ == "__main__":
    import sys
    repo = sys.argv[1] if len(sys.argv) > 1 else "/repo"
    for it in inventory(repo):
        print(json.dumps({"file": it[0], "kind": it[1], "text": it[2]}))
