#!/bin/bash
# usage: try_seed_iso.sh <PID> <n> <check ids...>
# Runs checks against a seeded patch WITHOUT touching /repo or /verif: a scratch worktree of /repo ($ISO/repo)
# gets the patch, a scratch copy of /verif ($ISO/verif, harness pointed at the worktree) runs the checks with
# VERIF_REPO set. The scratch directories are kept between calls for incremental builds; remove with `rm -rf /tmp/iso`
# and `git -C /repo worktree prune`.  ISO_DIR (default /tmp/iso) selects another scratch place, so that several
# lanes can run side by side (tools/seed_regress_par.sh).
PID=$1; N=$2; shift 2
P=/verif/seeded/${PID}_$N/patch.diff
[ -f "$P" ] || P=/tmp/wt_$PID/seed_out/$N/patch.diff
[ -f "$P" ] || { echo "no patch"; exit 2; }
ISO=${ISO_DIR:-/tmp/iso}
mkdir -p $ISO
# one user at a time per scratch place (agents share /tmp/iso)
exec 9>$ISO.lock; flock 9
HEAD=$(git -C /repo rev-parse HEAD)
if [ ! -d $ISO/repo ]; then git -C /repo worktree add --detach $ISO/repo $HEAD >/dev/null 2>&1 || exit 3; fi
cd $ISO/repo && git checkout -q -- . && git checkout -q --detach $HEAD || exit 3
rsync -a --delete --exclude .git --exclude 'harness/target' --exclude 'harness_yara/target' --exclude replays --exclude .locks \
      --exclude 'harness/Cargo.lock' --exclude 'harness_yara/Cargo.lock' /verif/ $ISO/verif/
sed -i "s|\"/repo/|\"$ISO/repo/|g" $ISO/verif/harness/Cargo.toml $ISO/verif/harness_yara/Cargo.toml
git apply $P || { echo "patch does not apply"; exit 3; }
export VERIF_REPO=$ISO/repo
for c in "$@"; do (cd $ISO/verif && ./check $c 2>&1 | grep -v "^KNOWN-FINDING" | cut -c1-220 | sed "s/^/[${PID}_$N $c] /"); done
cd $ISO/repo && git checkout -q -- .
