#!/bin/bash
# usage: try_seed.sh <PID> <n> <check ids...> — apply a seeded patch to /repo's working tree, run checks, revert
PID=$1; N=$2; shift 2
P=/tmp/wt_$PID/seed_out/$N/patch.diff
[ -f "$P" ] || P=/verif/seeded/${PID}_$N/patch.diff
FILES=$(grep '^+++ b/' $P | sed 's/+++ b\///')
cd /repo
for f in $FILES; do if ! git diff --quiet -- $f; then echo "SKIP: $f has uncommitted edits"; exit 2; fi; done
git apply $P || { echo "patch does not apply"; exit 3; }
for c in "$@"; do (cd /verif && ./check $c 2>&1 | grep -v "^KNOWN-FINDING" | cut -c1-150 | sed "s/^/[$PID_$N $c] /"); done
git checkout -- $FILES
