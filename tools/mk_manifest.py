#!/usr/bin/env python3
# Regenerates MANIFEST.json from the table below (run from /verif).
import json, os, subprocess

ALL = ["C%02d" % i for i in range(1, 21)]
COMMON_NOTE = ("Trusted: Coq 8.16.1 kernel and vm_compute (no native_compute); the hand-written Gallina model named in "
               "DESIGN.md for this property; the Rust harness and the Python case printer; hooks under cfg(boreal_verif). "
               "Theorems are about the model; the model is tied to /repo by the correspondence run on every check. ")
T = "Coq proof over an executable Gallina model + model/implementation correspondence evaluated by vm_compute"

CHECKS = {
 "C01": ("proof", "Theorems over the model of text-string matching (literal generation for every modifier combination, atom "
         "picking, Aho-Corasick fan-out, literal confirmation, fullword rule, xor key recovery, sorted one-per-offset insertion); "
         "correspondence: the real scanner's full match lists (offset, length, key, data) on generated declarations and inputs "
         "equal the model's and the declarative encoding-set specification.", "DESIGN.md §7 C01, notes/C01.md",
         "aho-corasick's overlapping search enters by its contract (Model/Ac.v); the text-string parser is covered by the "
         "correspondence only."),
 "C02": ("proof", "Theorems over an executable Gallina model of the hex/regex string path (Aho-Corasick hit order, literal "
         "confirmation, simple / DFA validators with the 4096-byte window and start_position, sorted insertion): sound for every "
         "decomposition with the glue property, complete and exact for every decomposition with the split property outside the "
         "recorded start_position class; both properties proved for every flat pattern and every run, and for alternations of "
         "equal-length runs; SimpleValidator proved equal to the DFA contract; span contract (0 < len, off+len <= |mem|). "
         "Correspondence: the implementation's decomposition is read through a guarded hook and full match lists are compared "
         "with the model and the language specification on ~900 generated patterns x 4 inputs.", "DESIGN.md §7 C02, notes/C02.md",
         "regex-automata / aho-corasick enter by contract; decompositions from alternations of unequal length are validated per "
         "case only (open finding C02-alt-glue); the length-choice clause is false in general (open finding "
         "C02-length-by-arrival) and proved only for the Greedy kind and the raw path; the window is not reached at run time. "
         "Open findings C02-start-position, C02-alt-glue, C02-length-by-arrival."),
 "C03": ("proof", "Same Coq development as C02 (atomized path sound/complete for any decomposition, greedy matcher sound "
         "unconditionally, raw path exact) plus widen_correct (ordered-list equality for every HIR without word boundaries); "
         "correspondence: for ~900 generated regexes x modifier subsets, full match lists and `matches` verdicts equal the model "
         "run on the implementation's own decomposition (hook) and the reference semantics.", "DESIGN.md §7 C03, notes/C03.md",
         "regex-automata / regex-syntax / the HIR printer enter by contract; wide, fullword and word-boundary runners are covered "
         "by the correspondence and widen_correct only. Open findings C03-start-position, C03-alt-glue, "
         "C03-fullword-single-length, C03-wide-boundary-rev-context, C03-length-by-arrival."),
 "C04": ("proof", "C04_eval_eq_sem: for every well-formed condition, selected string and identifier stack, the evaluator model "
         "(early exits, accumulators, clamps, occurrence indexes, bound identifiers) equals the declarative three-valued "
         "semantics; rule verdict and totality corollaries; correspondence on rule verdicts and on integer sub-expression values "
         "observed through console.log probes.", "DESIGN.md §7 C04",
         "Floats are binary64 values of Coq.Floats.SpecFloat and `matches` answers Spec/Regex.v is_match (the regex engine is C03's subject); entrypoint and module values are outside the model; parser and compile_expression are "
         "covered by the correspondence only; percentages restricted to (p, n) where binary64 and exact ceil agree."),
 "C05": ("proof", "C05_scan_eq_spec: the two-phase scan procedure (global rules first with delayed reporting, namespace "
         "disabling, fix-up, positional rule references, variable alignment) returns exactly the declarative rule-set semantics, "
         "for every rule set / input / match set (list and callback APIs, every configuration); C05_ns_independent: rules of "
         "other namespaces declared after or before a set A leave every verdict and every reported rule of A unchanged; "
         "correspondence on list and callback APIs, with and without include_not_matched and the first evaluation pass.",
         "DESIGN.md §7 C05, §12.4",
         "String matches are an input of the scanner model. Open finding C05-global-refs-ordinary (a global rule referring to an "
         "ordinary rule panics at scan time) is excluded by wf_scanner and shown by a refuted lemma."),
 "C06": ("proof", "C06_no_scan_sound: whatever the evaluation pass done before the string scan answers (other than 'matches "
         "needed') is what the evaluation with any matches answers, for every well-formed condition (refinement order, monotone "
         "and/or/for/list accumulators); correspondence under 9 configurations (full matches, statistics, not-matched, callback, "
         "profile, file, mmap) including whether the string scan was really skipped.", "DESIGN.md §7 C06",
         "Compiler profile and mem/file/mmap do not exist in the model: one prediction is compared with each of them. Match "
         "details are compared between configurations of the implementation (subset of the full run)."),
 "C07": ("translation_validation", "libyara 4.5.5 itself (vendored C source, built offline) is the executable specification: "
         "three-way run on generated rule files and inputs — libyara, boreal, and the Gallina specification of C01-C05 "
         "evaluated by vm_compute; boreal must accept what libyara accepts and report the same rules and per-string offsets "
         "(lengths where unique) outside the documented deviations; the Coq content is the composition of the C01/C04/C05 "
         "theorems (model = spec) with the validated link spec = libyara.", "DESIGN.md §7 C07, notes/C07.md",
         "Validation per generated program, not proof: 'spec = libyara' and 'boreal = libyara' are checked case by case. Hex "
         "and regex strings have no unbounded model = spec theorem in the chain yet. libyara quirks excluded from generation "
         "are listed in notes/C07.md; nine recorded findings."),
 "C08": ("proof", "C08_depth_bounded: a verified checker (soundness proved for all graphs) run on the call graph and recursion "
         "guards regenerated from the parser / compiler source on each run bounds the depth of every call chain by the "
         "configured limits; the rest of the property (arbitrary panics, spans on character boundaries, running time, finalize "
         "+ scan of accepted rule sets) is explored with grammar-, token- and byte-mutated texts and pathological nestings, each "
         "compiled in a child process with a reduced stack.", "DESIGN.md §7 C08, notes/C08.md",
         "translators/callgraph.py over-approximates call edges and recognises guard sites; that every guard restores its "
         "counter is an assumption checked only by exploration. Open finding C08-ast-drop-recursion."),
 "C09": ("proof", "No-panic theorems for the modelled kernels that take attacker-controlled integers (module value access "
         "paths, entrypoint / RVA arithmetic of pe and elf, version-info walk, dotnet method ranges, macho fat recursion); the "
         "file-format modules themselves are explored: every asset x structure-aware mutations x generated module-querying "
         "rules x scan modes (contiguous, fragmented with described != fetched lengths, process_memory), debug build, child "
         "processes with a hang watchdog; published collection sizes against the translated caps.",
         "DESIGN.md §7 C09, notes/C09.md",
         "Proof only for the listed kernels; pe/elf/macho/dotnet/dex parsers over the object crate are not modelled "
         "(exploration). hash/math argument clipping is C16's, evaluator and memory kernels C04/C11's."),
 "C10": ("proof", "Generic wire codec round-trip theorem; write/read schemas and rebuild parameters of every `mod wire` block "
         "regenerated from the source on each run and proved to agree; correspondence: byte identity of re-serialisation, rule "
         "listing and scan results of original vs reloaded scanner.", "DESIGN.md §7 C10, notes/C10.md",
         "translators/wire_schema.py is trusted; objects rebuilt on load are identified with their construction parameters."),
 "C11": ("proof", "C11_union and companions: the fragmented scan of the model is the region-order concatenation of per-region scans "
         "(no spanning match, failed fetch contributes nothing, single region at 0 = direct scan, filesize undefined, read/ "
         "range logic of Memory); correspondence on region layouts, fetch failures and scan modes against per-region scan_mem "
         "and the model.", "DESIGN.md §7 C11, notes/C11.md",
         "Read/range completeness and find_at on ascending layouts are checked by correspondence; binary search is modelled by "
         "the installed std algorithm. Open finding C11-region-order."),
 "C12": ("proof", "C12_per_variable: one shared Aho-Corasick automaton with de-duplicated atoms gives each string exactly the "
         "result of scanning it alone, for every matcher kind, direct and fragmented; C12_union / C12_embedded / C12_order / C12_same_string: the results of a set of strings are unchanged by other strings compiled before, after or around it and by reordering; correspondence on pairs of rule sets built "
         "to collide on atoms, all interleavings for small sets.", "DESIGN.md §7 C12, notes/C12.md",
         "The rule-level union statement relies on C05 and is checked implementation against implementation."),
 "C13": ("proof", "Clone isolation over all histories of clone / define_symbol / set_scan_params / set_module_data / scan (each "
         "clone's observable state is the fold of its own operations), define_symbol typing and visibility, hash-cache "
         "transparency and per-scan lifetime, schedule independence of a small-step model of concurrent scans under the "
         "cache-pool hypothesis; correspondence on real Scanner histories and hash-call sequences; real thread schedules "
         "(1-16 threads, shared scanner or clones, seeded yields) are explored against a sequential oracle.",
         "DESIGN.md §7 C13, notes/C13.md",
         "A scan is an abstract function of the scanner's four fields and the input; regex-automata's cache-pool contract is an "
         "explicit premise (shown necessary by a refuted variant); OS scheduling is sampled, not forced."),
 "C14": ("proof", "C14_limit: no string exceeds string_max_nb_matches for any matcher kind and region layout; match records are "
         "StringMatch::new of one fetched region (bounds, positive length, capped data); prefix relation for raw matchers; "
         "correspondence on max_len x limit boundary grids for every matcher kind.", "DESIGN.md §7 C14, notes/C14.md",
         "Atomized and raw regex matchers enter through the implementation's own unlimited run; the AC prefix statement is "
         "kept as a Definition."),
 "C16": ("proof", "Theorems for argument/range clipping, on_range over fragmented memory, cache consistency, checksum32, CRC-32 "
         "(table = bitwise), string.to_int = strtoll with full consumption, streaming digests and the integer cores of the math "
         "functions; correspondence through a probe module with Gallina MD5/SHA-1/SHA-256/CRC-32 references and exact rational "
         "values (1e-9 relative tolerance) for floats.", "DESIGN.md §7 C16, notes/C16.md",
         "C16_model_eq_spec: the model of every math / hash / string call equals the declarative value on well-formed scans "
         "(mode minimality, deviation by histogram, serial-correlation closed form proved over exact rationals); only the f64 "
         "tolerance and the log2 enclosure are checked per case rather than proved; RustCrypto and crc32fast enter by the "
         "streaming contract."),
 "C15": ("proof", "Prefix theorems (abort: every configuration; timeout: events and returned rules, with and without the first evaluation pass, outside the two recorded classes) by a simulation over the scanner model with a per-expression count of timeout checks; correspondence at "
         "EVERY callback-abort point and EVERY timeout check of each generated scan (error kind, returned rules, events, number "
         "of checks), each followed by a normal scan; prefix / no-spurious-match decided against the uninterrupted run.",
         "DESIGN.md §7 C15",
         "Hook verif_timeout makes the firing check deterministic (sticky and fire-once modes). Open findings "
         "C15-timeout-unvalidated-globals (pinned by an existing test) and C15-noscan-timeout-flush-order. ScanStatistics "
         "events are left out."),
 "C17": ("proof", "C17_access_sound over the module value/type model (a conforming value accessed along a type-checked path "
         "yields a conforming value); declared type trees regenerated from the source; the premise (published values conform, "
         "counters, caps, idempotence) is explored on pristine and mutated executables.", "DESIGN.md §7 C17, notes/C17.md",
         "The producers (pe/elf/macho/dotnet/dex parsers) are not modelled: exploration only for them."),
 "C18": ("proof", "Exactly-once / multiset theorems over the thread-pool transition system for every schedule; rendering and "
         "flag-to-parameter model; correspondence: sorted stdout of the rebuilt boreal executable vs the model's rendering of "
         "library results for the same files, thread counts 1-16, flag subsets, save/load.", "DESIGN.md §7 C18, notes/C18.md",
         "Real scheduling, mmap vs buffered reads and clap are runtime: explored, not proved."),
 "C19": ("proof", "Chunk tiling for every region length / chunk size / page size, fetch cap, reset = fresh cursor, pagemap "
         "decision table, and C19_fetch_is_view: a file-backed fetch (file pages from the file, modified pages from "
         "/proc/pid/mem) returns exactly the process's view of the chunk under kernel coherence; correspondence: the real LinuxProcessMemory walked over synthetic /proc files, every next/fetch/reset "
         "answer and every fetched byte against model and spec.", "DESIGN.md §7 C19",
         "procfs semantics assumed as documented in proc(5); a live victim process (anonymous, private and shared file mappings, needles around page and chunk boundaries) is scanned in both tiers. Open finding C19-shared-tail-beyond-eof."),
 "C20": ("proof", "Include expansion model = textual inlining (transparency, same error kind, totality with the depth limit, "
         "disabled mode, path resolution); correspondence on generated include graphs compiled in child processes, three "
         "resolution modes.", "DESIGN.md §7 C20, notes/C20.md",
         "The file system is an abstract map in the model; the parser is covered by the correspondence only."),
}

PENDING = {
}


def main():
    hooks = subprocess.run(["git", "-C", "/repo", "log", "--format=%h %s"], capture_output=True, text=True).stdout.splitlines()
    hook_commits = [l.split()[0] for l in hooks if " verif hook" in l]
    checks = []
    for pid in ALL:
        if pid in CHECKS and os.path.exists("vlib/props/%s.py" % pid.lower()):
            cat, text, ref, note = CHECKS[pid]
            checks.append({
                "property_id": pid, "quick_cmd": "./check %s --tier quick" % pid,
                "thorough_cmd": "./check %s --tier thorough" % pid, "evidence_file": "evidence/%s.json" % pid,
                "replay_cmd_template": "./check %s --replay {path}" % pid, "engine": "coq-model",
                "level_claimed": {"category": cat, "text": text, "design_ref": ref},
                "level_note": COMMON_NOTE + note,
                "technique": T if cat == "proof" else "three-way differential run (libyara / boreal / Gallina spec under vm_compute) composed with the C01-C05 Coq theorems"})
    na = [{"property_id": p, "reason": PENDING[p]} for p in ALL if p not in [c["property_id"] for c in checks]]
    m = {
        "version": 1, "setup_cmd": "./setup.sh",
        "hooks": {"guard": "boreal_verif",
                  "enable": "RUSTFLAGS=\"--cfg boreal_verif\" (the harness crate /verif/harness builds /repo/boreal as a path dependency with it)",
                  "baseline_off_cmd": "cd /repo && cargo nextest run --workspace --no-fail-fast --tool-config-file pb:/w/lib/nextest.toml --profile pb --test-threads 8 --offline",
                  "source_commits": hook_commits, "add_only": False},
        "engines": [
            {"name": "coq-model", "path": "coq/", "serves_properties": [c["property_id"] for c in checks],
             "kind_free_text": "Coq 8.16.1 development: executable Gallina model of boreal's logic, declarative spec, theorems (Properties/Cxx.v)"},
            {"name": "correspondence", "path": "harness/ vlib/ check", "serves_properties": [c["property_id"] for c in checks],
             "kind_free_text": "Rust harness running the real code + coqc vm_compute evaluation of model and spec on the same generated cases"}],
        "checks": checks, "not_applicable": na,
        "notes": "add_only=false: the first hook commit also extends the workspace lint `unexpected_cfgs` check-cfg list in Cargo.toml by 'cfg(boreal_verif)' (one edited line, no behaviour). Properties listed under not_applicable with 'under construction' are being built; none is considered inapplicable to the technique. Every check rebuilds the harness from /repo's current working tree by content: vlib/core.py cargo_build keeps a sha256 of the local sources beside the build output and forces cargo to recompile the local packages when it differs (modification times are not trusted); corpus files name files of the tree with ${REPO}/${VERIF} placeholders (DESIGN.md §6, §12.6)."}
    json.dump(m, open("MANIFEST.json", "w"), indent=1)
    print("checks:", [c["property_id"] for c in checks], "pending:", [x["property_id"] for x in na])


main()
