#!/usr/bin/env python3
# usage: seed_round.py <first id number> PID...  — creates /tmp/wt_PID worktrees and /tmp/seed_prompt_PID.txt with the
# list of what earlier rounds tried (summaries of /verif/seeded/PID_*/meta.json)
import subprocess, json, glob, sys
first = int(sys.argv[1])
for pid in sys.argv[2:]:
    prior = []
    for f in sorted(glob.glob('/verif/seeded/%s_*/meta.json' % pid)):
        m = json.load(open(f)); prior.append((m.get('summary') or '')[:170].replace('\n', ' '))
    subprocess.run(['git', '-C', '/repo', 'worktree', 'add', '--detach', '/tmp/wt_%s' % pid, 'HEAD'], capture_output=True)
    t = subprocess.run(['python3', '/verif/tools/seed_prompt.py', pid, '2'], capture_output=True, text=True).stdout
    t += ("\n\nAlready tried by earlier testers — find DIFFERENT ideas, in other code paths:\n- " + "\n- ".join(prior) +
          "\nSet CARGO_TARGET_DIR=/tmp/wt_%s/target for every cargo command so build output stays in the worktree.\n"
          "IMPORTANT: number your two mutation directories %d and %d (seed_out/%d/ and seed_out/%d/) instead of 1 and 2.\n"
          % (pid, first, first + 1, first, first + 1))
    open('/tmp/seed_prompt_%s.txt' % pid, 'w').write(t)
    print(pid, len(prior), "earlier")
