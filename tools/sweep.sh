#!/bin/bash
# usage: tools/sweep.sh "<seeds>" [ids...]  — run quick checks over several seeds, print only alarms
cd "$(dirname "$0")/.."
seeds=${1:-"2 3 4 5 6"}; shift
ids=${@:-$(python3 -c "import json;print(' '.join(c['property_id'] for c in json.load(open('MANIFEST.json'))['checks']))")}
./setup.sh > /dev/null 2>&1
for seed in $seeds; do for p in $ids; do
  out=$(VERIF_SEED=$seed timeout 1200 ./check $p 2>&1 | grep -v "^KNOWN-FINDING")
  if echo "$out" | grep -q "VIOLATION\|broken:\|Traceback"; then echo "ALARM seed=$seed $p"; echo "$out" | cut -c1-400; fi
done; echo "seed $seed done"; done
