#!/usr/bin/env python3
# prints the prompt given to an independent "seeding" agent for one property (only the property text + a worktree)
import json, sys
pid = sys.argv[1]
n = sys.argv[2] if len(sys.argv) > 2 else "2"
for l in open('/verif/properties.jsonl'):
    p = json.loads(l)
    if p['id'] == pid:
        break
print(f"""You are testing a verification effort from the outside. You get a git worktree of the Rust project vthib/boreal (a YARA rule engine) at /tmp/wt_{pid} and one property the project is supposed to satisfy. Work ONLY inside /tmp/wt_{pid} (never touch /repo or /verif, do not read /verif). The sandbox has no network; build with `cargo ... --offline` (CARGO_NET_OFFLINE=true).

PROPERTY {pid}: {p['title']}
{p['statement']}
Quantification: {p['quantifier']['text']}
Code it is anchored in: {', '.join(p['anchors']['files'])}

YOUR TASK: produce {n} different, realistic changes (mutations) to boreal's source that each BREAK this property while the code still compiles and the existing test suite still passes. Realistic = the kind of slip a maintainer could make in a refactoring or an optimisation (an off-by-one in a boundary, a wrong short-circuit, a stale cached value, a swapped pair, a missing reset, a condition applied to the wrong phase), not sabotage that any ordinary use would expose at once. Prefer changes that need something SPECIFIC to manifest: a particular interleaving or interruption point, a multi-step sequence of operations, an unusual input or option combination, or two cooperating sites that each look fine alone.

For each mutation i (1..{n}) create the directory /tmp/wt_{pid}/seed_out/i/ containing:
  - patch.diff : `git diff` of the change against the worktree's HEAD (source files only; apply-able with `git apply`)
  - a demonstration: a small Rust integration test file or example program (demo.rs plus instructions) that FAILS (assertion failure, wrong output, or crash) with the patch applied and PASSES without it. It must use only boreal's public API (crate `boreal`, features default + optionally `serialize`), e.g. as a file you temporarily place in boreal/tests/it/ or as `cargo test -p boreal --test <name>`; say exactly how to run it.
  - meta.json : {{"property": "{pid}", "summary": "...", "needs": "what specific input/sequence/option makes it manifest", "files_changed": [...], "demo_cmd": "...", "suite_cmd": "...", "suite_result": "..."}}
Then restore the worktree source (`git checkout -- .`, keep seed_out/ untracked) before starting the next mutation.

You MUST verify, for each mutation: (1) with the patch applied the full existing suite passes exactly as without it. Suite command, run from /tmp/wt_{pid}: `cargo nextest run --workspace --no-fail-fast --tool-config-file pb:/w/lib/nextest.toml --profile pb --test-threads 8 --offline` — on the unmodified tree 622 tests pass and the same 11 tests always fail in this sandbox (boreal::it process::* tests, callback::test_scan_process_with_callback, boreal-cli::cli test_invalid_save and test_input_cannot_read): with your patch the result must be identical (622 passed, the same 11 failing). The first build takes several minutes. (2) the demonstration fails with the patch and passes without it. Record both in meta.json. If a candidate mutation makes an existing test fail, discard it and find another.

Do not modify existing tests. Do not leave the worktree dirty at the end (only seed_out/ may remain). Final message: for each mutation a 3-line summary (what, where, how it manifests) and the verification results.""")
