#!/usr/bin/env python3
# (re)writes /verif/seeded/<id>/meta.json from the agents' meta, the coordinator's verification log and the table below
import json, os
D = {  # id: (caught_by, first_run, strengthening)
 "C04_1": (["C04"], "missed", "vlib/cond.py: nested string-set loops with the anonymous string used after an inner loop"),
 "C04_2": (["C04"], "missed", "vlib/props/c04.py: match_max_length drawn from {512, 0, 1, 2}"),
 "C05_1": (["C05", "C06"], "caught", None),
 "C05_2": (["C05", "C06", "C15"], "caught", None),
 "C06_1": (["C06"], "missed", "vlib/props/c06.py: single-rule cases with sibling loops; vlib/ruleset.py poison template"),
 "C06_2": (["C06", "C05"], "caught", None),
 "C15_1": (["C15"], "caught", None),
 "C15_2": (["C15"], "missed", "Model/Scanner.v extended with module-import / match-limit events, per-hit string-scan phase, fragmented input; generator follows"),
 "C19_1": (["C19"], "caught", None),
 "C19_2": (["C19"], "caught", None),
 "C01_1": (["C01", "C14"], "caught", None),
 "C01_2": (["C01", "C14 (broken tie)"], "caught", None),
 "C08_1": (["C08"], "missed", "translators/callgraph.py tracks where the recursion counter is in force; vlib/props/c08.py: 101 re-entry templates at limit 5 and default"),
 "C08_2": (["C20", "C08 (translator)"], "caught by C20", "translator now requires include_depth + 1 at every recursive use"),
 "C10_1": (["C10"], "broken obligation only (no failing input)", "vlib/props/c10.py: catalogue of raw / wide / \\b regexes x flag combinations; every rebuild parameter has a dependent case"),
 "C10_2": (["C10"], "caught", None),
 "C11_1": (["C11"], "caught", None),
 "C11_2": (["C11", "C14 (broken tie)"], "caught", None),
 "C16_1": (["C16"], "caught", None),
 "C16_2": (["C16"], "caught", None),
 "C20_1": (["C20"], "caught", None),
 "C20_2": (["C20", "C08 (translator)"], "caught", None),
 "C12_1": (["C12", "C01"], "caught", None),
 "C12_2": (["C05", "C12"], "missed by C12, C01, C05", "vlib/props/c05.py checks reported string names / matches per rule; vlib/props/c12.py: private rules / private strings / xor strings in A and B, whole reported rule compared (union vs alone vs model report)"),
 "C14_1": (["C14"], "missed", "vlib/props/c14.py: atomized strings whose single atom hit yields a batch of matches crossing the limit, limits 1, 2, N+-2"),
 "C14_2": (["C05", "C14"], "missed by C14", "vlib/props/c14.py: reference run alone, limited run inside a rule set with false globals / private rules; every record must be an occurrence of that string"),
 "C17_1": (["C17", "C09"], "missed", "vlib/props/_modgen.py: 62 synthetic files around every reachable cap; integer caps translated (ModuleTrees.v int_caps)"),
 "C17_2": (["C17"], "missed", "harness/src/modval.rs: the same bytes scanned again from buffers at address = 1..7 mod 16; results must be equal"),
 "C18_1": (["C18"], "caught", None),
 "C18_2": (["C18"], "missed", "vlib/props/c18.py: large-event cases (1000-2000 matches per event, > 8/16/64 KiB, 2-16 workers)"),
 "C13_1": (["C13"], "missed", "vlib/props/c13.py: concurrent rule sets cover every matcher kind owning per-thread caches (wide + \\b etc.); worker panics reported per job"),
 "C13_2": (["C13"], "caught", None),
 "C09_1": (["C09"], "caught", None),
 "C09_2": (["C16", "C09"], "missed by C09", "vlib/props/c09.py: adjacent 1-8-byte regions (legacy mode) with streaming math / hash rules over ranges crossing several regions"),
 "C02_1": (["C01", "C14 (broken tie)", "C02"], "missed by C02", "vlib/props/c02.py: generator family of shared-prefix alternatives of different lengths followed by a jump"),
 "C02_2": (["C02"], "caught", None),
 "C03_1": (["C03"], "caught", None),
 "C03_2": (["C03"], "missed", "vlib/props/c03.py: generator families `ascii wide` where a branch is the widened form of another (with / without nocase); corpus/C03/ascii_wide_nul_branch.json"),
 "C04_3": (["C06", "C04"], "missed by C04 (caught by C06)", "vlib/props/c04.py: every case is also scanned with the default parameters (first evaluation pass allowed) and the verdict must be the same; sibling-loop family"),
 "C04_4": (["C04", "C06"], "caught", None),
 "C05_3": (["C05"], "caught", None),
 "C05_4": (["C05", "C06"], "missed", "vlib/ruleset.py: rule names are unique per namespace only (two namespaces declare rules of the same name)"),
 "C15_3": (["C15"], "missed", "vlib/props/c15.py: rule sets decided in the first pass, several namespaces, a false global rule after a true one (every timeout point lies in the first pass)"),
 "C15_4": (["C15"], "missed (no raw regex in the generator; the sticky hook masked the swallowed timeout)", "hook: timeout firing at one check only (cf35779); every timeout point is also run in that mode; regex strings without literal in the generated rule sets"),
 "C06_3": (["C01", "C06"], "missed by C06 (caught by C01)", "vlib/ruleset.py: nocase text strings and inputs in another case than written, in C05 / C06 rule sets"),
 "C06_4": (["C06"], "caught", None),
 "C19_3": (["C19"], "broken tie only (no failing input)", "Model/ProcessCase.v: a failed fetch is accepted by the specification only where nothing is readable; victim maps files at non-zero offsets"),
 "C19_4": (["C19"], "caught", None),
 "C10_3": (["C10"], "caught", None),
 "C10_4": (["C10"], "broken tie only (no failing input)", "harness/src/bin/c10.rs: user modules replacing built-in ones by name given at compile time and on reload, probe rules; Model/WireCase.v module-table model with two theorems; corpus witness"),
 "C13_3": (["C13"], "missed", "vlib/props/c13.py + harness/src/bin/c13.rs: case kind `seq` — sequences of different inputs on one scanner, every result compared in full with a scanner compiled for that scan alone, clones made before / after; thrash family of 30-45 inputs for a state-hungry regex"),
 "C13_4": (["C13"], "missed", "same `seq` kind: inputs decided before the string scan mixed with inputs needing it, default parameters, match details compared"),
 "C01_3": (["C01"], "caught", None),
 "C01_4": (["C01"], "caught", None),
 "C11_3": (["C11"], "missed", "vlib/props/c11.py: one case in six has every rule decidable without its strings (fast mode, full matches); the match list must still be the per-region union; corpus/C11/fast_mode_full_matches_noscan.json"),
 "C11_4": (["C11"], "caught", None),
 "C12_3": (["C12", "C17 (broken tie)"], "missed by C12", "vlib/props/c12.py: module family — every rule its own source text with `import`, scanned on real PE / ELF assets; corpus/C12/module_reimport_other_namespace.json"),
 "C12_4": (["C05", "C12", "C15 (broken tie)"], "missed by C12", "vlib/props/c12.py: A may start with a true global rule then a false one while B lives in another namespace, with and without include_not_matched; corpus witnesses"),
 "C14_3": (["C14"], "caught", None),
 "C14_4": (["C11", "C14"], "broken tie only for C14 (C11 concrete)", "vlib/props/c14.py: layouts with the same page mapped several times + text_complete clause; corpus/C14/same_page_same_offset.json"),
 "C16_3": (["C16", "C11"], "caught", None),
 "C16_4": (["C16"], "caught", None),
 "C17_3": (["C17"], "missed", "harness/src/bin/c17.rs + vlib/props/c17.py: module user data through Scanner::set_module_data (PeData is_signed, ConsoleData), probes consuming the value as its declared type; corpus witnesses"),
 "C17_4": (["C17"], "caught", None),
 "C18_3": (["C18"], "caught", None),
 "C18_4": (["C18"], "caught", None),
 "C20_3": (["C20"], "missed", "vlib/props/c20.py: shape `samename` — the same directive text in files of different directories resolving to different (or the same) files, in one graph or over several calls on one compiler; corpus witnesses"),
 "C20_4": (["C20"], "caught", None),
 "C07_1": (["C07"], "caught at one seed in three", "vlib/props/c07.py: generator atom `for K of (set) : (<N of (set2)> and/or <anonymous reference>)`; corpus replay"),
 "C07_2": (["C07"], "caught at one seed in three", "vlib/props/c07.py: string family of class-only single-length fullword regexes (raw path) with members placed end to end after an alphanumeric byte; corpus replay"),
}
for sid, (by, first, how) in D.items():
    d = "/verif/seeded/" + sid
    if not os.path.isdir(d):
        continue
    try:
        ag = json.load(open(d + "/meta_agent.json"))
    except Exception:
        ag = {}
    ver = open(d + "/verify.log").read().strip().splitlines()[-1] if os.path.exists(d + "/verify.log") else ""
    pid, n = sid.split("_")
    meta = {"id": sid, "property": pid, "summary": ag.get("summary"), "needs": ag.get("needs"),
            "files_changed": ag.get("files_changed"), "demo_cmd": __import__("re").split(r"\s{2,}\(", ag.get("demo_cmd") or "")[0],
            "confirmed_by_coordinator": {"worktree": "/tmp/wt_%s (scratch git worktree of /repo, removed afterwards)" % pid,
                                         "ran": "tools/verify_seed.sh %s %s: demonstration on HEAD, demonstration with the patch, full nextest suite with the patch" % (pid, n),
                                         "result": ver},
            "detection": {"how": "tools/try_seed.sh: git -C /repo apply patch.diff; ./check <ids>; git -C /repo checkout -- <files>",
                          "caught_by": by, "first_run": first, "strengthening": how}}
    json.dump(meta, open(d + "/meta.json", "w"), indent=1)
print(len([s for s in D if os.path.isdir('/verif/seeded/' + s)]), "seed directories")
