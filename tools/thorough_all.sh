#!/bin/bash
# usage: tools/thorough_all.sh [ids...] — run the thorough tier of every (or the given) check once, print summary lines
cd "$(dirname "$0")/.."
ids=${@:-$(python3 -c "import json;print(' '.join(c['property_id'] for c in json.load(open('MANIFEST.json'))['checks']))")}
./setup.sh > /dev/null 2>&1
for p in $ids; do
  s=$(date +%s)
  out=$(timeout 7200 ./check $p --tier thorough 2>&1 | grep -v "^KNOWN-FINDING")
  echo "$out" | grep -E "VIOLATION|broken:|Traceback|thorough:" | cut -c1-300
  echo "  ($p took $(( $(date +%s) - s )) s)"
done
