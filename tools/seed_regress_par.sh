#!/bin/bash
# usage: tools/seed_regress_par.sh <lanes> [seed ids…] — tools/seed_regress.sh over several scratch places at once
# (ISO_DIR=/tmp/iso_r1 … /tmp/iso_rN); the lines are merged into seeded/REGRESSION.txt at the end.
cd "$(dirname "$0")/.."
lanes=$1; shift
ids=${@:-$(ls seeded | grep -E '^C[0-9]+_[0-9]+$' | sort -t_ -k1,1 -k2,2n)}
i=0; for id in $ids; do l=$((i % lanes + 1)); eval "lane$l=\"\$lane$l $id\""; i=$((i+1)); done
for l in $(seq 1 $lanes); do
  eval "set -- \$lane$l"
  [ $# -gt 0 ] || continue
  ISO_DIR=/tmp/iso_r$l REGRESS_LANE=$l tools/seed_regress.sh "$@" > /tmp/seed_regress_lane$l.log 2>&1 &
done
wait
python3 - seeded/REGRESSION.txt seeded/REGRESSION.txt.lane* <<'PY'
import sys
old={}
for f in sys.argv[1:]:
    try:
        for l in open(f): old[l.split(":")[0]]=l
    except FileNotFoundError: pass
key=lambda k: (k.split("_")[0], int(k.split("_")[1]))
open(sys.argv[1],"w").write("".join(old[k] for k in sorted(old, key=key)))
PY
rm -f seeded/REGRESSION.txt.lane*
for l in $(seq 1 $lanes); do git -C /repo worktree remove --force /tmp/iso_r$l/repo 2>/dev/null; rm -rf /tmp/iso_r$l /tmp/iso_r$l.lock; done
git -C /repo worktree prune
grep -c . seeded/REGRESSION.txt; grep -v ": caught" seeded/REGRESSION.txt
