#!/bin/bash
# re-checks every compiled property file (and all it depends on) with the independent checker and prints the axioms
cd /verif/coq || exit 2
MODS=$(ls theories/Properties/C*.vo | sed 's|theories/Properties/\(C..\)\.vo|Boreal.Properties.\1|')
timeout 7200 coqchk -o -silent -Q theories Boreal $MODS 2>&1 | tail -40
