#!/bin/bash
# usage: tools/seed_corpus.sh <seed id> <check id> — runs the check against the seeded change in isolation and keeps the first
# violating case as corpus/<check>/seed_<seed id>.json (a regression case that must pass on the unchanged tree)
cd "$(dirname "$0")/.."
id=$1; chk=$2; pid=${id%_*}; n=${id#*_}
out=corpus/$chk/seed_$id.json
[ -f "$out" ] && { echo "$out exists"; exit 0; }
res=$(tools/try_seed_iso.sh $pid $n $chk 2>&1)
rp=$(echo "$res" | grep VIOLATION | grep -v no-failing | sed 's/.*replay=\([^ ]*\).*/\1/' | head -1)
[ -n "$rp" ] && [ -f "$rp" ] || { echo "$id: no concrete violation from $chk"; exit 1; }
python3 - "$rp" "$out" "$id" <<'PY'
import json,sys,os
sys.path.insert(0, os.getcwd())
from vlib import core
r=json.load(open(sys.argv[1]))
# paths of the scratch copy the case was found in -> ${REPO} / ${VERIF} (core.load_case_file maps them back)
json.dump({"case": core.portable_paths(r["case"]), "note": "first failing case with seeded change %s applied; must pass on the unchanged tree" % sys.argv[3]}, open(sys.argv[2],"w"))
PY
./check $chk --replay $out 2>&1 | grep -q VIOLATION && { echo "$id: corpus case alarms on the unchanged tree, removed"; rm -f $out; exit 1; }
echo "$id -> $out"
