#!/usr/bin/env python3-vt
# validates MANIFEST.json and every evidence/<id>.json against the schemas in /root/.vp; evidence level must equal the manifest category
import json, sys, glob, jsonschema
ms = json.load(open('/root/.vp/MANIFEST.schema.json')); es = json.load(open('/root/.vp/EVIDENCE.schema.json'))
m = json.load(open('/verif/MANIFEST.json')); jsonschema.validate(m, ms)
bad = 0
for c in m['checks']:
    pid = c['property_id']
    try:
        e = json.load(open('/verif/' + c['evidence_file'])); jsonschema.validate(e, es)
        assert e['level'] == c['level_claimed']['category'], (e['level'], c['level_claimed']['category'])
        assert e['property_id'] == pid
    except Exception as x:
        bad += 1; print("BAD", pid, str(x)[:300])
print("manifest ok;", len(m['checks']), "checks;", bad, "bad evidence files")
sys.exit(1 if bad else 0)
