#!/bin/bash
# usage: tools/seed_regress.sh [seed ids…] — applies every stored seeded change in isolation (tools/try_seed_iso.sh) and runs the
# check(s) recorded as catching it; writes seeded/REGRESSION.txt (one line per seed: caught / MISSED / patch does not apply)
cd "$(dirname "$0")/.."
ids=${@:-$(ls seeded | grep -E '^C[0-9]+_[0-9]+$' | sort -t_ -k1,1 -k2,2n)}
out=seeded/REGRESSION.txt; tmp=$out.tmp$REGRESS_LANE; : > $tmp
# as one lane of tools/seed_regress_par.sh: write the lines to a lane file, the wrapper merges
if [ -n "$REGRESS_LANE" ]; then lanefile=$out.lane$REGRESS_LANE; : > $lanefile; fi
for id in $ids; do
  pid=${id%_*}; n=${id#*_}
  checks=$(python3 -c "
import json,re
m=json.load(open('seeded/$id/meta.json'))
c=[re.match(r'C\d\d',x).group(0) for x in m['detection']['caught_by'] if re.match(r'C\d\d',x) and 'broken tie' not in x]
print(' '.join(dict.fromkeys(c[:2])) or '$pid')")
  res=$(tools/try_seed_iso.sh $pid $n $checks 2>&1)
  if echo "$res" | grep -q "patch does not apply"; then st="patch does not apply to the current tree"
  elif echo "$res" | grep "VIOLATION" | grep -qv "no-failing-input-found"; then st="caught ($(echo "$res" | grep VIOLATION | grep -v no-failing | sed 's/.*property=\(C[0-9]*\).*/\1/' | sort -u | tr '\n' ' '))"
  elif echo "$res" | grep -q "VIOLATION"; then st="broken tie only ($checks)"
  else st="MISSED by $checks"; fi
  echo "$id: $st" | tee -a $tmp
  [ -n "$REGRESS_LANE" ] && echo "$id: $st" >> $lanefile
done
if [ -n "$REGRESS_LANE" ]; then rm -f $tmp; exit 0; fi
# merge with the lines of seeds not re-run this time
python3 - "$out" "$tmp" <<'PY'
import sys,re
old={}
try:
    for l in open(sys.argv[1]): old[l.split(":")[0]]=l
except FileNotFoundError: pass
for l in open(sys.argv[2]): old[l.split(":")[0]]=l
key=lambda k: (k.split("_")[0], int(k.split("_")[1]))
open(sys.argv[1],"w").write("".join(old[k] for k in sorted(old, key=key)))
PY
rm -f $tmp
