#!/bin/bash
# usage: verify_seed.sh <PID> <n>   — re-verify a seeded mutation in its scratch worktree /tmp/wt_<PID>:
#  demo passes on HEAD, fails with the patch; full suite unchanged with the patch; then check the /verif check catches it.
set -u
PID=$1; N=$2; WT=/tmp/wt_$PID; D=$WT/seed_out/$N; OUT=/verif/seeded/${PID}_$N
export CARGO_NET_OFFLINE=true CARGO_TARGET_DIR=$WT/target
mkdir -p $OUT
cd $WT || exit 2
git checkout -q -- . 
DEMO_CMD=$(python3 -c "import json,re;print(re.sub(r'git apply \S+ *(&&|;) *', '', re.split(r'\s{2,}\(', json.load(open('$D/meta.json'))['demo_cmd'])[0]))")
echo "demo_cmd: $DEMO_CMD" > $OUT/verify.log
run_demo() { ( cd $WT && bash -c "$DEMO_CMD" ) > $OUT/demo_$1.log 2>&1; rc=$?
  if grep -q "test result: FAILED\|panicked at\|error\[" $OUT/demo_$1.log; then echo FAIL; elif grep -q "test result: ok" $OUT/demo_$1.log; then echo PASS; else echo "rc=$rc"; fi; }
echo "== demo on HEAD" >> $OUT/verify.log; R0=$(run_demo head)
git apply $D/patch.diff || { echo "patch does not apply" >> $OUT/verify.log; exit 3; }
echo "== demo with patch" >> $OUT/verify.log; R1=$(run_demo patch)
git clean -fdq -- boreal/tests boreal-cli/tests boreal-parser/tests 2>/dev/null
echo "== suite with patch" >> $OUT/verify.log
cargo nextest run --workspace --no-fail-fast --tool-config-file pb:/w/lib/nextest.toml --profile pb --test-threads 8 --offline 2>&1 | grep -E "^\s+FAIL|Summary" | sort | uniq > $OUT/suite_with_patch.txt
git checkout -q -- . ; git clean -fdq -- boreal/tests boreal-cli/tests 2>/dev/null
SUITE=$(grep Summary $OUT/suite_with_patch.txt)
echo "demo_head_rc=$R0 demo_patch_rc=$R1 suite: $SUITE" | tee -a $OUT/verify.log
cp $D/patch.diff $OUT/patch.diff; cp $D/meta.json $OUT/meta_agent.json; cp $D/demo* $D/*.rs $D/README* $OUT/ 2>/dev/null
